#!/usr/bin/env python3
"""Regenerates MANIFEST.json from the table below (kept in one place so the file is always valid)."""
import json, os
HERE = os.path.dirname(os.path.dirname(os.path.abspath(__file__)))
props = [json.loads(l) for l in open(os.path.join(HERE, 'properties.jsonl'))]
ids = [p['id'] for p in props]

TRUST = ('Trusted: rustc nightly MIR dump of the current tree, the MIR executor (lib/mirsym) and the contract models it lists in the '
         'evidence, z3. Counterexamples are replayed against the real build before being reported; exit 2 = inconclusive. ')
TECH = 'symbolic execution of rustc MIR + z3 (bounded; all values within the bounds)'
CHECKS = {
 'C01': dict(
   level='model_checking', design_ref='DESIGN.md §5 C01',
   text='The whole real walker (Searcher::new, list_search_results, visit_dir, ok_to_visit_dir, is_buffered) is executed symbolically from '
        'MIR over an abstract file system whose tree shape, entry kinds, link targets, depth window and root depth are solver variables; on every '
        'path z3 decides that the reported multiset equals {entries whose nesting level is in the window, reachable through directories only}, '
        'each exactly once, with bfs depth-monotone and dfs subtree-contiguous order. Counterexamples are rebuilt on disk and run through the real binary.'
        ' (root_options) the per-root loop of list_search_results with visit_dir summarised and 2-3 roots whose mindepth / maxdepth / archives / symlinks / traversal are all symbolic: each root is walked once with exactly its own options. Names that are not valid UTF-8 are a symbolic bit per node, consulted through the real util::canonical_path (Path::to_str / to_string_lossy by contract). (walk/fsroot) the same walk with the root possibly the file-system root `/`, whose entries have no separator more than `/` itself (replayed on the real `/` with a shallow window).',
   note=TRUST + 'Bounds: 4 (quick) / 5 (thorough) nodes, 1 and 2 roots, window bounds 0..nodes+1, root depth 1..4. Assumed: the file-system contract models '
        '(read_dir lists children in index order; canonicalize/read_link/file_type by contract); check_file summarised as a ghost trace; '
        'special files behave like regular files; links not followed (C18); parse_roots/parse_root_options are not covered here.',
   technique=TECH),
 'C02': dict(
   level='model_checking', design_ref='DESIGN.md §5 C02',
   text='The real evaluator (Searcher::conforms, get_column_expr_value, Expr::fmt, Variant::to_int/to_float/to_bool/to_datetime, str_to_bool) and '
        'the real parser pieces (parse_cond BETWEEN desugaring, parse_func_scalar) are executed symbolically from MIR; z3 decides, for every operator and '
        'all 64-bit / f64 / bool / timestamp operands, that the comparison equals the documented relation, that decimal and boolean literals are '
        'coerced to what they spell, that BETWEEN is inclusive, and that quoted literals stay values.'
        " (literal_text) `name / path === <literal>` with literal and value from one table incl. the column's own name and display name: operands are evaluated independently. (literal_int, negative) `-size OP -<digits>` for all magnitudes. (e2e) the real main::exec_search on query TEXT — real lexer, parser, walker, check_file, evaluator, aggregates, TopN, Criteria::cmp, ResultsWriter — over the abstract file system; stdout decoded and compared with a reference evaluation over the visited entries.",
   note=TRUST + 'Assumed: get_field_value summarised as an arbitrary Variant of the column type (C04 decides the real attribute); Float operands non-NaN; '
        'text patterns are C12, date literals C13, unit suffixes C14; only = / != on booleans and the six documented operators on dates are claimed. '
        'BETWEEN literals from a 5-entry table, x over all non-negative i64.',
   technique=TECH),
 'C03': dict(
   level='model_checking', design_ref='DESIGN.md §5 C03',
   text='Op::negate, Parser::negate_expr_op, Parser::parse_expr/parse_and/parse_cond/parse_paren and Searcher::conforms are executed symbolically '
        'from MIR; z3 decides for every operator and all operand values that negation yields the complement, for every Expr tree up to the stated depth '
        'that negate_expr_op complements the evaluation (De Morgan), that NOT BETWEEN is the complement of BETWEEN, and for every well-formed token '
        'sequence over three boolean atoms / and / or / not / ( ) { } up to the stated length that the parsed tree evaluates as the textbook valuation.'
        ' (e2e) the real main::exec_search on query TEXT — real lexer, parser, walker, check_file, evaluator, aggregates, TopN, Criteria::cmp, ResultsWriter — over the abstract file system; stdout decoded and compared with a reference evaluation over the visited entries.',
   note=TRUST + 'Assumed: get_field_value summarised; operators restricted to well-typed (type, operator) pairs; regex verdicts uninterpreted. '
        'Bounds: trees of depth 1 (quick) / 2 (thorough); formulas of <= 4 (quick) / <= 6 (thorough) tokens, so nesting <= 2: the depth 5 of the '
        'property statement is not reached.',
   technique=TECH),
 'C04': dict(
   level='model_checking', design_ref='DESIGN.md §5 C04', engine='kani+mirsym',
   text='(kani/mode, Engine A) Kani/CBMC over the compiled mode.rs for ALL u32 modes: the seven file-type predicates decode S_IFMT (exactly one true, matching the first '
        'character of the mode string), the permission / suid / sgid predicates decode their bits and agree with the ten-character mode string, which is ls -l notation. '
        '(wiring, Engine B) the real Searcher::get_field_value arm of every metadata column — through FileMetadataState::update_file_metadata, util::get_metadata, '
        'check_file_mode, mode::* and Variant::from_* — over a symbolic lstat record and symbolic zip-member modes: size, uid, gid, hardlinks, inode, blocks, device, the 7 '
        'type and 14 permission booleans, mode, line_count, is_shebang and the four digest columns are the attribute they are named after. (shebang, line_count, digests) '
        'util::is_shebang over two symbolic bytes, util::get_line_count over <= 3 chunks with symbolic lengths / newline counts / read failures, get_sha*_file_hash with '
        'the RustCrypto hasher identified from its monomorphised type: hex(alg(whole file)), empty on failure. (extclass) is_archive..is_video with per-class one-entry '
        'lists in the default and user configuration, the user list symbolically present: lower-cased name ends with an extension of the active list, also for zip members. '
        '(hidden_empty) is_hidden / is_empty for entries and zip members over a name table. (xattrs) the real arms of has_xattrs / caps and HAS_XATTR / XATTR / HAS_CAPABILITIES / HAS_CAPABILITY over an entry with its own attribute set and, for a link, a target with another: the xattr crate by its documented contract (path functions do not dereference), File::open follows links, needs read permission and blocks on a FIFO — the value must be the entry\'s own, for every file type, readable or not, without a blocking open. (location) name / ext / path / dir / absdir / abspath of an entry walked through a linked directory, for every file type: the entry\'s own location (canonicalize resolves the last component too).',
   note=TRUST + 'Also trusted for kani/mode: Kani 0.68 / CBMC 6.11. Assumed: Metadata is a symbolic lstat record whose accessors return its fields; bytecount::count, '
        'io::copy and the digest crates by contract (the digest value itself is uninterpreted: the claim is which algorithm absorbs which bytes and how it is rendered); '
        'names from finite tables (stated in the evidence). Outside: owner-name lookup, xattrs and capabilities (syscalls / FFI), modification-time formatting, '
        'name/path/dir/abspath/absdir (thin wrappers over std::path), CONTAINS, MIME / EXIF / media readers; a reader rewritten onto another std::io API is reported inconclusive.',
   technique='Kani/CBMC bounded model checking of the compiled code (all 2^32 modes) + symbolic execution of rustc MIR + z3'),
 'C05': dict(
   level='model_checking', design_ref='DESIGN.md §5 C05',
   text='<Criteria<String> as Ord>::cmp, cmp_at, cmp_at_numbers / cmp_at_datetimes / cmp_at_direct, Expr::contains_numeric / contains_datetime, '
        'Field::is_numeric_field / is_datetime_field, Function::is_numeric_function and util::parse_filesize are executed symbolically from MIR on two rows '
        'with symbolic key values, for every column whose evaluator arm builds a number or a date, function keys, one- and two-key lists and symbolic '
        'directions; z3 decides that the result is the lexicographic composition of numeric / chronological / string order with desc reversed. '
        'Parser::parse_order_by runs on symbolic lexems and the comparator induced by its result is decided equal to the textbook one. '
        '(clause_keys) the real lexer and the real Parser::parse on `order by E` for ten key expressions E (arithmetic, brackets, leading sign or number, function calls), with and without a '
        'WHERE clause (symbolic choice): the key is the same expression tree as `select E`. Counterexamples are replayed through the real parser and the real Criteria::cmp in a native test.'
        ' (e2e) the real main::exec_search on query TEXT — real lexer, parser, walker, check_file, evaluator, aggregates, TopN, Criteria::cmp, ResultsWriter — over the abstract file system; stdout decoded and compared with a reference evaluation over the visited entries. The comparator for date keys runs under the calendar contract of chrono (with_year / with_month ... give None when the date does not exist) with a symbolic clock: it must not depend on the day the query is run.',
   note=TRUST + 'Assumed: T = String with byte-lexicographic Ord (model); key values as rendered by the evaluator: decimals < 1000 (signed for the arithmetic keys size - 100 / 100 - size), fixed-width dates (parse_datetime '
        'on a rendered date summarised; C13), texts from an 8-entry table; column classification read from the Variant constructor in get_field_value. '
        'Permutation / sortedness of the buffer itself is TopN (C06). Bounds: key lists <= 2 keys; ORDER BY clauses <= 3 (quick) / 4 (thorough) tokens.',
   technique=TECH),
 'C06': dict(
   level='model_checking', design_ref='DESIGN.md §5 C06',
   text='TopN::{new,limitless,insert,values} are executed symbolically from MIR over a BTreeMap contract model: one insert from every valid pre-state '
        '(<= 3/4 distinct keys x <= 2 rows per key, values / inserted key / limit symbolic) preserves the representation invariant, evicts exactly when '
        'full and evicts the last row of the greatest key; histories of <= 3/4 inserts give the first min(N, limit) rows of the stable sort. The early-exit '
        'guards of the real walker (directory, archive-member and roots loops) and Searcher::new\'s TopN choice are decided inside the abstract file '
        'system with symbolic LIMIT, archives, ordered / unordered queries, 1 and 2 roots; parse_limit on symbolic lexems.'
        ' (query_limit) the real Parser::parse on `<fields> from . [limit N]` with symbolic fields (columns and constants): Query.limit = N, and 0 (unlimited) for an absent limit or limit 0 whenever a column is selected. (e2e) the real main::exec_search on query TEXT — real lexer, parser, walker, check_file, evaluator, aggregates, TopN, Criteria::cmp, ResultsWriter — over the abstract file system; stdout decoded and compared with a reference evaluation over the visited entries.',
   note=TRUST + 'Assumed: BTreeMap/Vec contract models; TopN keys abstract (u32) — the real key order is C05; abstract file system as in C01; quick tier '
        'runs the walker without a WHERE clause (every row matches), thorough with symbolic per-row verdicts. Bounds: 4/5 nodes, <= 2 members per archive.',
   technique=TECH),
 'C07': dict(
   level='model_checking', design_ref='DESIGN.md §5 C07',
   text='function::get_aggregate_value (all nine arms with their filter_map closures), get_mean, get_variance, get_buffer_sum and the aggregate branch of '
        'Searcher::get_function_value / get_column_expr_value are executed symbolically from MIR over N symbolic rows (value absent / non-numeric / decimal): '
        'z3 decides COUNT = N, SUM / MIN / MAX exact over bit-vectors, AVG = (sum as f64)/(count as f64) and VAR_*/STDDEV_* = the textbook formula in IEEE '
        'binary64; an undecided float query falls back to the structural comparison plus a native battery of inputs (incl. values > 2^30). The argument of an '
        'aggregate (also a scalar function such as LENGTH(name)) must be recorded in the row map under the key the aggregate reads.'
        ' (e2e) the real main::exec_search on query TEXT — real lexer, parser, walker, check_file, evaluator, aggregates, TopN, Criteria::cmp, ResultsWriter — over the abstract file system; stdout decoded and compared with a reference evaluation over the visited entries.',
   note=TRUST + 'Bounds: 0..3 (quick) / 0..5 (thorough) rows for the exact family with values < 2^16 (no claim about usize overflow of sums), 1..2 / 1..3 rows with '
        'values < 2^8 for the float families. That the buffer holds exactly the entries matching WHERE is C01/C02.',
   technique=TECH),
 'C08': dict(
   level='model_checking', design_ref='DESIGN.md §5 C08',
   text='The grouped tail of the real Searcher::list_search_results (entered from bb0 with no roots and a pre-filled row buffer), partition_output_buffer with its '
        'closures, the per-group get_column_expr_value / get_function_value / get_aggregate_value and the ORDER BY comparator closure (through a sort_by model that '
        'calls the real closure) are executed symbolically from MIR: for 0..N rows with every assignment of group keys and symbolic sizes z3 decides that the emitted '
        'rows are exactly one per distinct key with the COUNT and SUM of that block, sorted by key or by count (asc / desc) when ORDER BY is given.'
        ' Also ORDER BY sum(size) (multi-digit symbolic values: text order differs from numeric order) and a function-valued group key (length(name)). (e2e) the real main::exec_search on query TEXT — real lexer, parser, walker, check_file, evaluator, aggregates, TopN, Criteria::cmp, ResultsWriter — over the abstract file system; stdout decoded and compared with a reference evaluation over the visited entries.',
   note=TRUST + 'Bounds: 0..3 (quick) / 0..4 (thorough) rows, key values from a 3-entry table (the empty key doubles as "column absent"), one grouping key, '
        'aggregates COUNT and SUM. HashMap iteration order is unspecified: rows are compared as a set unless ORDER BY is present. The grouping key of `group by <column>` is decided '
        'to parse to the plain column (whole real Parser::parse, six key columns, with and without WHERE); the grouping values written by check_file are not covered.',
   technique=TECH),
 'C17': dict(
   level='model_checking', design_ref='DESIGN.md §5 C17',
   text='The real main::exec_search -> Searcher::new -> list_search_results -> visit_dir (and, in the pipe family, the real check_file) run symbolically from MIR over '
        'the abstract file system with fault variables: directories that cannot be listed (incl. the roots), entries whose type cannot be read, paths that cannot be '
        'canonicalised. z3 decides on every path that the rows are exactly the entries outside failed directories, that the status is 1 iff a failure was hit and the '
        'failing path is named. Pipe family: every write to stdout (header, rows, separators, footer, print!) may fail with BrokenPipe once the consumer has closed the '
        'pipe (monotone; LineWriter flush model): no path may end in a panic and the status is 0 or 1 — streamed, ordered, aggregate and grouped result paths.',
   note=TRUST + 'Assumed: abstract file system as in C01; Parser::parse summarised; stdout = LineWriter over a pipe (a write fails iff it must reach a closed pipe); '
        'real EPIPE/SIGPIPE delivery and panics inside std are outside. Content readers (hashes, line_count ...) returning empty values on unreadable files are not '
        'covered by this check. Bounds: 4/5 nodes (faults), 3 nodes (pipe). Replays: mode-000 directories searched under setpriv uid 65534; `| head -c N` for the pipe.',
   technique=TECH),
 'C19': dict(
   level='model_checking', design_ref='DESIGN.md §5 C19',
   text='The archive branch of the real walker (through the real exec_search) is executed symbolically from MIR: every file may be a zip with 0..2 members, '
        'ZipArchive::new may fail (corrupt archive), single members may fail to open; z3 decides that every member of every readable archive in the window is reported '
        'exactly once, corrupt archives and unreadable members are skipped without an error status, ordinary rows are exactly those of the run without `archives`, '
        'and (family limit) that LIMIT counts members like entries. Counterexamples are replayed with real zip files (incl. members with an unsupported method).'
        ' (walk, dfs) archives in depth-first mode. (fileinfo/member_time) util::datetime::to_local_datetime on every date zip::DateTime::try_from_msdos accepts under a SYMBOLIC CLOCK (chrono with_* / from_ymd_opt / and_hms_opt by calendar contract): the stored date and time whatever the clock, never a panic; (fileinfo/member_columns) the zip variants of the C04 wiring family incl. members without a stored mode.',
   note=TRUST + 'Assumed: zip crate by contract (new / len / by_index); which names count as archives is a symbolic flag per file (extension test: C04); '
        'member attributes (to_file_info and the file_info arms of get_field_value) are not covered by this check; check_file summarised. Bounds: 4/5 nodes, <= 2 members.',
   technique=TECH),
 'C18': dict(
   level='model_checking', design_ref='DESIGN.md §5 C18',
   text='The real walker with the `symlinks` root option runs symbolically from MIR (exec_search -> list_search_results -> visit_dir -> ok_to_visit_dir) over an '
        'abstract file system with symbolic links: every non-root node may be a link to any node or dangling, spelled absolutely or relative to its own directory; the '
        'root is an absolute path or `.`. Path spellings are modelled (std::path equality by components, the OS resolves relative text against the cwd, opendir / '
        'canonicalize follow links), inodes are per node. z3 decides for every link graph that the walk terminates within the unrolling bound, that every entry of every '
        'directory reachable through directories and links-to-directories is reported exactly once, and that the status is 0. Counterexamples are rebuilt with real symlinks.'
        " (links/above) links may point at the root's parent directory (one level less deep); (links/chains) chains of two links; (outside/*) the same walker with the search root an INNER node of the abstract file system (node 0 = the root's parent, the other nodes anywhere below it): links to directories outside and above the root, chains whose intermediate link lies outside — rows from outside appear exactly when a reported link (chain) leads there, every real directory once; (root_options) see C01. (links/two-roots) a second root of the same query inside the first root's tree: nothing is listed twice.",
   note=TRUST + 'Assumed: the file-system contract above; link targets are not links themselves (chains outside the bound); targets lie inside the root tree or are dangling '
        '(targets above / outside the root — where the depth arithmetic can underflow — are outside the bound); no depth window; check_file summarised. Bounds: 4/5 nodes.',
   technique=TECH),
 'C09': dict(
   level='model_checking', design_ref='DESIGN.md §5 C09',
   text='Real MIR of output/{mod,flat,html,json,csv}.rs, util/wbuf.rs and the row-emitting sites of searcher.rs, z3: (cells) ResultsWriter::new / write_header / write_row / '
        'write_row_separator / write_footer through the Box<dyn ResultsFormatter> of each of the six formats on a 2 x 2 table whose first row is made of symbolic characters (any '
        'Unicode scalar): html = fixed skeleton, every value character raw (then shown not to be < > &) or an entity that unescapes to it; tabs / lines / list = values verbatim '
        'between exactly the format\'s separators; json / csv = the encoder is called once per row with exactly that row\'s pairs / values, `[` `,` `]` around them, and a record '
        'that the buffered csv writer hands over in two writes cut at an arbitrary byte (possibly inside a multi-byte character) still arrives. (protocol) the real '
        'list_search_results + check_file + ResultsWriter + formatters inside the abstract file system (tree shape and per-entry WHERE verdicts symbolic, concrete adversarial '
        'values): for the streamed (1 and 2 roots), ordered, aggregate and grouped paths and all six formats stdout decodes (JSON / CSV / HTML parsers, separator splitting) to exactly '
        'the accepted rows.',
   note=TRUST + 'Assumed: serde_json::to_string and csv::Writer are third-party encoders (cells: one token per call carrying its arguments; protocol: Python json / csv with minimal '
        'quoting) — their byte-level RFC conformance is trusted, and a change of their configuration (a WriterBuilder) is reported inconclusive; io::Write::write_fmt renders and '
        'hands the text to the target\'s real write; get_field_value summarised (concrete values per entry); colours off. Bounds: cells 2 rows x 2 columns, values of <= 2 symbolic '
        'characters, replacement patterns of one character; protocol 4 (quick) / 5 (thorough) entries, regular files only. Flat formats are claimed only for values without their separators.',
   technique=TECH),
 'C10': dict(
   level='model_checking', design_ref='DESIGN.md §5 C10',
   text='The whole real parser (Parser::parse with every parse_* method, Field::from_str, Function::from_str, Op::from ...) is executed symbolically from MIR on '
        'symbolic lexem vectors (each position a solver variable over an alphabet of lexems; six families: the full alphabet and clause-specific alphabets behind fixed '
        'prefixes). Every path ending in a panic obligation (index, subtraction, unwrap / expect) or exceeding every loop bound derivable from the token count (no progress '
        '= hang) yields a token vector that is run through the real binary; what reproduces there (status 101 / no termination) is a violation. ArithmeticOp::calc on '
        'arbitrary operands is included for evaluation-time crashes.'
        ' On every accepted (Ok) token vector a must-reject oracle is applied: unbalanced or mismatched brackets, dangling / unknown operator, ORDER BY position outside the select list, non-numeric LIMIT, unknown output format, no column — such a vector must be rejected (replayed: status 2 and no rows). The eval family also runs the C16 `args` / `args_all` families (every scalar function of the Function enum on ten ill-typed / empty / negative / huge arguments in the first, second and third position; std::time::Duration constructors, static regexes by contract; functions that end in unmodelled library code are listed in the evidence notes as undecided). (literals) the real Searcher::conforms on column x 12 operators x literals that cannot be interpreted (boolean, date incl. digits of other scripts and signed non-numbers, number, pattern): a verdict or error_exit(2), never a panic. (e2e_bad) the whole program from MIR on malformed or uninterpretable query texts (bad rx root, LIMIT beyond the groups, brackets closed by the other kind which must be rejected with status 2).',
   note=TRUST + 'Assumed: the lexer is replaced by the symbolic lexem vector (the lexer loop over raw bytes is not covered); UserDirs::new = None. Bounds (symbolic tokens after the '
        'prefix): full alphabet 2 (quick) / 4 (thorough); select, where, tail 3 / 5; ORDER BY, GROUP BY 3 / 4; 60 s per family in the quick tier (an unexhausted length is noted '
        'in the evidence). Crashes of scalar functions on ill-typed arguments and of date / boolean literals are not covered by this check.',
   technique=TECH),
 'C15': dict(
   level='model_checking', design_ref='DESIGN.md §5 C15',
   text='Real MIR, z3: (tree) symbolic token sequences over three columns, + - * / %, ( ) and unary minus through the real Parser::parse_expr: the parsed tree is the '
        'precedence-climbing tree of the textbook; (calc) ArithmeticOp::calc on symbolic f64 / integer operands is the IEEE operation named and never panics; (cache) '
        'Searcher::get_column_expr_value with the per-row value cache and the real Expr::fmt: the value of an expression evaluated after another one into the same row map equals '
        'its value in an empty map; (minus) a leading minus negates literals and columns.'
        ' (e2e) the real main::exec_search on query TEXT — real lexer, parser, walker, check_file, evaluator, aggregates, TopN, Criteria::cmp, ResultsWriter — over the abstract file system; stdout decoded and compared with a reference evaluation over the visited entries. (cache_literals) pairs of text-valued columns whose key texts could coincide: a quoted literal that spells a column, a function of that literal vs. of the column, one literal containing the argument separator vs. two literals.',
   note=TRUST + 'Assumed: get_field_value summarised as symbolic 16-bit integers per column; the lexer decides which characters are operators (outside); f64 % is fmod. '
        'Bounds: expressions of <= 5 (quick) / 7 (thorough) tokens; cache: ordered pairs from 8 representative expressions. Scalar function values are C16.',
   technique=TECH),
 'C12': dict(
   level='translation_validation', design_ref='DESIGN.md §2.3, §5 C12', engine='relang',
   text='Engine C: for every pattern of a bounded grammar the regex text produced by the real convert_glob_to_pattern / convert_like_to_pattern (native driver that '
        '#[path]-includes the tree\'s glob.rs) is parsed into a z3 regular language and z3 decides, over all subject strings of any length over the alphabet of the '
        'property, whether it differs from the textbook language of the pattern (* / ? resp. % / _, everything else literal, case-insensitive, whole-string). '
        'Engine B: the String arm of the real Searcher::conforms runs symbolically from MIR with the regex cache left by one earlier evaluation: every operator takes the '
        'documented decision and each negative operator complements its positive twin. Counterexamples are replayed through the real binary.',
   note=TRUST + 'The pattern side is enumerated (all patterns of length <= 2 quick / <= 3 thorough over 2 plain symbols, 17 metacharacters and the four wildcards); the subject side '
        'is symbolic and unbounded. Assumed: the regex crate implements its documented syntax (our RegLan translation of the emitted subset is cross-checked against the real '
        'crate on random subjects every run); Regex::new / is_match uninterpreted in the evaluator family. Subjects exclude newline and `/`.',
   technique='regex text of the real translators -> z3 RegLan equivalence (unbounded subjects); MIR symbolic execution + z3 for the evaluator arm'),
 'C20': dict(
   level='translation_validation', design_ref='DESIGN.md §2.3, §5 C20', engine='relang',
   text='(translate, Engine C) for every pattern of a bounded grammar (the shapes of the property statement plus all patterns of length <= 2/3 over letters, . * ? / and '
        'metacharacters) the regex compiled by the real convert_dockerignore_glob / convert_hgignore_glob (native driver over the tree sources) is parsed into a z3 regular '
        'language (search semantics) and z3 decides over all paths below the root whether it differs from the tools\' documented rule for well-formed patterns: `*` / `?` within one component, `**/` zero or more directories, a match covers whole '
        'components and everything below it, a trailing slash names a directory; hg patterns may start at any directory, docker patterns at the context root. (translate/hg-regexp) '
        '`syntax: regexp` lines: an unrooted search below the repository top, `^` = the top. (fold, Engine B) the real matches_dockerignore_filter / '
        'matches_hgignore_filter over <= 3/4 filters with symbolic verdicts and negation flags: docker = the last matching pattern decides, hg = any match. (precedence) the '
        'head of the real list_search_results with symbolic Option<bool> root options and configuration defaults: each mechanism is applied iff option.unwrap_or(config.unwrap_or(false)).'
        " (upstream) search_upstream_dockerignore / _hgignore from a root spelled canonically, through a link or with `..` in a small path world: the ignore file of the nearest ancestor of the root's real location, anchored at its canonical path. (gitarg) the walker with `gitignore`: libgit2's is_path_ignored (verdict symbolic) is asked once per entry about the entry ITSELF by an ABSOLUTE path (libgit2 reads a relative one from the top of the work tree), and the rows are the entries it does not ignore; replayed with real git from three working directories.",
   note=TRUST + 'Not covered: gitignore verdicts (one call into libgit2, FFI) — only the option precedence for git is; pattern texts outside the well-formed subset (empty components, `..`, a trailing `**`, character classes / alternations, which fselect takes literally); parse_hgignore / parse_dockerignore line handling (comments, blank lines, `syntax:` sections, `!`) and the upstream search '
        'for the ignore file. Pattern side enumerated, path side symbolic and unbounded.',
   technique='regex text of the real translators -> z3 RegLan equivalence (unbounded paths); MIR symbolic execution + z3 for fold and precedence'),
 'C13': dict(
   level='model_checking', design_ref='DESIGN.md §5 C13',
   text='Real MIR, z3: (table) the DateTime arm of Searcher::conforms for all 64-bit instants t and intervals a <= b: = / != / < / > / <= / >= as the statement defines them; '
        '(literal) util::datetime::parse_datetime from bb0 with DATE_REGEX.captures modelled — which optional groups are present and all six numeric fields symbolic, chrono by '
        'contract: every Ok result is [start, finish] = (h|0, m|0, s|0) .. (h|23, m|59, s|59) of the day named, start <= finish, and no field value makes it panic; (relative) '
        'today / yesterday / +N / -N under a symbolic clock denote the whole local day; (lexer_date) lexer::looks_like_date is true exactly for years 1970..2999 with month 01..12.'
        " (captures_model) the contract model of DATE_REGEX.captures that `literal` rests on is validated natively against the tree's real regex for 48 literal shapes (day / hour / minute / second precision, both separators, 1- and 2-digit fields). File times carry a symbolic sub-second part; literals do not. (e2e) the real program from MIR on query texts with date literals at the four precisions, quoted and unquoted, both separators, over entries stamped on both edges of the intervals (a year boundary, sub-second parts), with chrono on concrete fields; the printed `modified` column included. (relative) also day offsets of four and more digits.",
   note=TRUST + 'Assumed: the regex crate captures what the two date regexes say (captures modelled: groups present left to right, numbers of their digit width); chrono: '
        'with_hour/minute/second -> None outside their range, Local.with_ymd_and_hms -> Single(midnight of that day) or None (calendar validity uninterpreted), local-time '
        'conversion and formatting of the `modified` column, chrono-english free-form dates and DST gaps are outside the claim.',
   technique=TECH),
 'C14': dict(
   level='model_checking', design_ref='DESIGN.md §5 C14',
   text='Real MIR, z3: (parse) util::parse_filesize — the whole suffix ladder, the f64 multiplications and the cast — on <number><space?><unit> for every documented unit '
        '(units and multipliers read from docs/usage.md at run time) in several letter cases with a symbolic number n (also n + 1/2, 1/4, 1/16): the result is number x '
        'multiplier for all n, decided in integer arithmetic through an exact-double abstraction whose side condition is checked on every operation; (format) '
        'util::format_filesize from bb0 with the specifier regex captures modelled and humansize::format_size uninterpreted: for every units word (flags c / d / s before or '
        'after the unit), precision and space the option record handed to humansize (base, fixed unit, decimal places, space) and the short-unit rewrites are what the grammar denotes.'
        ' (coerce) ten literal spellings incl. leading-dot fractions (.5k) through the real Variant::to_int / to_float. The `replace` chain after humansize is compared by its effect on every unit text of the base in question. Fractions of a byte (`2.0`, `1.5b`) and fractions that are not multiples of 1/1024 (n + 1/4096) are included.',
   note=TRUST + 'Bounds: n < min(2^20, 2^51 / multiplier) so that every product is an exact double (larger literals, where rounding occurs, are outside); fractions 1/2, 1/4, '
        '1/16 only. Outside: humansize itself (monotonicity and round-trip of the rendered text), the regex crate (captures modelled), Field::FormattedSize wiring.',
   technique=TECH),
 'C16': dict(
   level='model_checking', design_ref='DESIGN.md §5 C16',
   text='Real MIR of function::get_value, z3: (wiring) with library string / float routines uninterpreted (terms over an abstract text sort, concatenation canonicalised) '
        'every arm is decided equal to its documented term: LOWER/UPPER/TRIM/LTRIM/RTRIM/REPLACE/CONCAT/CONCAT_WS/LENGTH (characters)/COALESCE (first non-empty)/ABS/SQRT/LN/EXP/'
        'POWER/LOG/LEAST/GREATEST; (substr) SUBSTR on concrete ASCII and multi-byte subjects with symbolic position and length over all i32 / usize values: 1-based, negative '
        'from the end, optional length, in characters, no panic; (args) non-numeric, empty, fractional and huge arguments never reach a panic in SUBSTR, POWER, LOG, '
        'FORMAT_TIME, BIN, ABS, LEAST, FORMAT_SIZE. args_all now decides every scalar function: rand (documented panic on an empty range), base64, chrono accessors, chrono-english (Ok / Err), split_whitespace, case mapping, regex captures by name are contract-modelled instead of ending the path.',
   note=TRUST + 'The library routines themselves (to_lowercase, trim, replace, powf, ln, base64, human_time, wana_kana) are uninterpreted: the claim is which routine is applied to '
        'which argument in which order. Outside: BIN / HEX / OCT rendering (radix format directives), INITCAP, TO/FROM_BASE64, FORMAT_TIME rendering, YEAR/MONTH/DAY/DOW, '
        'composition through get_function_value (argument evaluation order), SUBSTR position 0 and positions beyond the string (not specified by the statement).',
   technique=TECH),
 'C11': dict(
   level='model_checking', design_ref='DESIGN.md §5 C11',
   text='Real MIR, z3: (alias) Op::from / ArithmeticOp::from / Field::from_str / Function::from_str / OutputFormat::from on a symbolic choice of alias-group member and letter '
        'case (TableSym lifting: z3 decides which spellings reach which result): every member of a documented group — the tables of the statement plus the multi-name rows of '
        'docs/usage.md — yields one value; (lexer_words) the real Lexer::next_lexem on every operator / arithmetic / keyword word in four letter cases, in context: lexed as the kind '
        'of its group; (lexer_pairs) pairs of spellings of one query (round vs curly brackets, one argument vs shell words, upper case, explicit asc): identical lexem sequences; '
        '(lexer_splits) eight queries (several roots, root options, functions, ORDER BY lists) as one argument and split into shell words at every subset of their whitespace '
        'positions — the subset is a solver bit-vector — are lexed identically; '
        '(parse_pairs) the real Parser::parse on pairs of lexem vectors (optional select, commas, bracket kind, letter case of `group`, option aliases, operator aliases, '
        '`not like` vs `notlike`): structurally equal queries. (case) every word the parser sees (column, function, operator word incl. BETWEEN / RX, root option, format, arithmetic word) one at a time in another letter case, and the optional brackets of argument-less functions, parse to the same Query.',
   note=TRUST + 'The two lexer families execute the lexer MIR on concrete words / queries (no symbolic input there: a finite list, stated in the evidence); invariance under every '
        'whitespace split point set is covered for the listed queries (lexer_splits: <= 5 / 8 free positions, every search-root word a shell word of its own, since fselect takes the '
        'rest of a shell word as the root path) and every case mask only for the listed spellings. DATE_ALIKE_REGEX.captures evaluated with Python re on concrete text.',
   technique=TECH),
}
REASON_TODO = 'check not built yet in this session (planned: see DESIGN.md §5); not claimed until it exists'
NA = {}

m = {
 'version': 1,
 'setup_cmd': './setup.sh',
 'hooks': {'guard': 'none', 'enable': 'no source hooks: harnesses are appended to scratch copies of /repo (cfg(kani) / cfg(test) exist only there)',
           'baseline_off_cmd': 'cd /repo && cargo test --workspace --no-fail-fast --offline', 'source_commits': [], 'add_only': True},
 'engines': [
   {'name': 'mirsym', 'path': 'lib/mirsym', 'serves_properties': sorted(CHECKS), 'kind_free_text': 'symbolic executor for rustc MIR (-Zunpretty=mir of the current tree) with contract models, z3 as the deciding step'},
   {'name': 'kani', 'path': 'lib/kani_engine.py', 'serves_properties': ['C04'], 'kind_free_text': 'Kani proof harnesses (kani/*.rs) appended to a scratch copy of the current tree; CBMC decides; counterexamples via concrete playback'},
   {'name': 'relang', 'path': 'lib/relang.py', 'serves_properties': ['C12', 'C20'], 'kind_free_text': 'regex text emitted by the real translators (native driver over the tree sources) -> z3 regular-language equivalence over unbounded subjects'},
 ],
 'checks': [],
 'not_applicable': [],
 'notes': 'Known findings and fixed defects: known_findings.json. Exit 2 = inconclusive (never a pass, never a violation).',
}
for pid in ids:
    if pid in CHECKS:
        c = CHECKS[pid]
        m['checks'].append({
            'property_id': pid,
            'quick_cmd': './check %s --tier quick' % pid,
            'thorough_cmd': './check %s --tier thorough' % pid,
            'evidence_file': 'evidence/%s.json' % pid,
            'replay_cmd_template': './check %s --replay {path}' % pid,
            'engine': c.get('engine', 'mirsym'),
            'level_claimed': {'category': c['level'], 'text': c['text'], 'design_ref': c['design_ref']},
            'level_note': c['note'],
            'technique': c['technique'],
        })
    else:
        m['not_applicable'].append({'property_id': pid, 'reason': NA.get(pid, REASON_TODO)})
json.dump(m, open(os.path.join(HERE, 'MANIFEST.json'), 'w'), indent=1)
print('MANIFEST.json:', len(m['checks']), 'checks,', len(m['not_applicable']), 'not applicable')
