#!/usr/bin/env python3
"""Regenerates MANIFEST.json from the table below (kept in one place so the file is always valid)."""
import json, os
HERE = os.path.dirname(os.path.dirname(os.path.abspath(__file__)))
props = [json.loads(l) for l in open(os.path.join(HERE, 'properties.jsonl'))]
ids = [p['id'] for p in props]

CHECKS = {
 'C03': dict(
   level='model_checking', design_ref='DESIGN.md §5 C03',
   text='Bounded symbolic model checking of the real MIR: Op::negate, Parser::negate_expr_op and Searcher::conforms are '
        'executed symbolically; z3 decides, for every operator and all 64-bit / f64 / bool / timestamp operand values, that '
        'negation yields the complement, and for every Expr tree up to the stated depth that negate_expr_op complements the '
        'evaluation (De Morgan). Counterexamples are replayed through the real binary on a real directory before being reported.',
   note='Trusted: rustc nightly MIR dump, the MIR executor and its contract models (listed in the evidence), z3. Assumed: '
        'get_column_expr_value summarised as an arbitrary Variant of the column type; operators restricted to well-typed '
        '(type, operator) pairs; regex verdicts uninterpreted; tree depth <= 1 (quick) / 2 (thorough). The property\'s nesting depth 5 is not reached.',
   technique='symbolic execution of rustc MIR + z3 (bounded, all operand values)'),
}
REASON_TODO = 'check not built yet in this session (planned: see DESIGN.md §5); not claimed until it exists'
NA = {}

m = {
 'version': 1,
 'setup_cmd': './setup.sh',
 'hooks': {'guard': 'none', 'enable': 'no source hooks: harnesses are appended to scratch copies of /repo (cfg(kani) / cfg(test) exist only there)',
           'baseline_off_cmd': 'cd /repo && cargo test --workspace --no-fail-fast --offline', 'source_commits': [], 'add_only': True},
 'engines': [
   {'name': 'mirsym', 'path': 'lib/mirsym', 'serves_properties': sorted(CHECKS), 'kind_free_text': 'symbolic executor for rustc MIR (-Zunpretty=mir of the current tree) with contract models, z3 as the deciding step'},
 ],
 'checks': [],
 'not_applicable': [],
 'notes': 'Known findings and fixed defects: known_findings.json. Exit 2 = inconclusive (never a pass, never a violation).',
}
for pid in ids:
    if pid in CHECKS:
        c = CHECKS[pid]
        m['checks'].append({
            'property_id': pid,
            'quick_cmd': './check %s --tier quick' % pid,
            'thorough_cmd': './check %s --tier thorough' % pid,
            'evidence_file': 'evidence/%s.json' % pid,
            'replay_cmd_template': './check %s --replay {path}' % pid,
            'engine': c.get('engine', 'mirsym'),
            'level_claimed': {'category': c['level'], 'text': c['text'], 'design_ref': c['design_ref']},
            'level_note': c['note'],
            'technique': c['technique'],
        })
    else:
        m['not_applicable'].append({'property_id': pid, 'reason': NA.get(pid, REASON_TODO)})
json.dump(m, open(os.path.join(HERE, 'MANIFEST.json'), 'w'), indent=1)
print('MANIFEST.json:', len(m['checks']), 'checks,', len(m['not_applicable']), 'not applicable')
