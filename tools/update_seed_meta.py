#!/usr/bin/env python3
"""update_seed_meta.py <matrix output files…>: fill `detected_by` in seeded/*/meta.json from seed_matrix.sh output (first run that exits 1)."""
import sys, re, json, os, glob
HERE = os.path.dirname(os.path.dirname(os.path.abspath(__file__)))
runs = {}
for f in sys.argv[1:]:
    for l in open(f, errors='replace'):
        m = re.match(r'^(C\d\d-(?:r\d)?m\d) (C\d\d) exit=(\d+) (\d+) violation line\(s\);\s*(?:violated: )?(.*)$', l.strip())
        if m:
            runs.setdefault(m.group(1), []).append((m.group(2), int(m.group(3)), m.group(5)))
missing = []
for d in sorted(glob.glob(os.path.join(HERE, 'seeded', '*', ''))):
    s = os.path.basename(d.rstrip('/'))
    meta = json.load(open(d + 'meta.json'))
    rs = runs.get(s)
    if not rs:
        if not meta.get('detected_by'):
            missing.append(s)
        continue
    hit = next((r for r in rs if r[1] == 1), None)
    own = meta['property']
    if hit:
        meta['detected_by'] = {'check': hit[0], 'tier': 'quick', 'exit': 1, 'obligation': hit[2][:200]}
        if hit[0] != own:
            meta['detected_by']['own_property_check'] = '%s exits %s on this change; caught by %s' % (own, next((r[1] for r in rs if r[0] == own), '?'), hit[0])
        meta.pop('miss_reason', None)
    else:
        meta['detected_by'] = None
        missing.append(s)
    json.dump(meta, open(d + 'meta.json', 'w'), indent=1)
print('seeds with a run:', len(runs), '; not detected / no run:', missing)
